(* driver.ml — interprets scenario files (docs/SCENARIO.md) against the model extracted from Coq.
   Everything semantic is in model.ml; this file is I/O, hex, and formatting of result lines. *)
open Model
module String = Stdlib.String
module List = Stdlib.List
type string = Stdlib.String.t

external c_strtod : string -> (int64 * int * bool) = "lc_strtod"
external c_fmt_f : int64 -> string = "lc_fmt_f"

(* ---------- conversions between OCaml and extracted data ---------- *)
let byte_of_int (i : int) : byte = Obj.magic i
let int_of_byte (b : byte) : int = Obj.magic b

let rec pos_of_int n = if n = 1 then XH else if n land 1 = 0 then XO (pos_of_int (n lsr 1)) else XI (pos_of_int (n lsr 1))
let n_of_int n = if n = 0 then N0 else Npos (pos_of_int n)
let rec int_of_pos = function XH -> 1 | XO p -> 2 * int_of_pos p | XI p -> 2 * int_of_pos p + 1
let int_of_n = function N0 -> 0 | Npos p -> int_of_pos p
let rec nat_of_int n = if n <= 0 then O else S (nat_of_int (n - 1))
let rec int_of_nat = function O -> 0 | S k -> 1 + int_of_nat k
let nat_of_int n = let r = ref O in for _ = 1 to n do r := S !r done; !r
let int_of_nat n = let rec go acc = function O -> acc | S k -> go (acc + 1) k in go 0 n

(* N <-> int64 bit patterns (floats) *)
let n_of_int64 (x : int64) : n =
  let rec go i acc = (* build positive from the most significant bit down *)
    if i < 0 then acc else
      let bit = Int64.logand (Int64.shift_right_logical x i) 1L = 1L in
      go (i - 1) (match acc with
                  | None -> if bit then Some XH else None
                  | Some p -> Some (if bit then XI p else XO p)) in
  match go 63 None with None -> N0 | Some p -> Npos p
let int64_of_n (v : n) : int64 =
  let rec go = function XH -> 1L | XO p -> Int64.shift_left (go p) 1 | XI p -> Int64.logor (Int64.shift_left (go p) 1) 1L in
  match v with N0 -> 0L | Npos p -> go p

let str_of_string (s : string) : str = List.init (String.length s) (fun i -> byte_of_int (Char.code s.[i]))
let string_of_str (l : str) : string =
  let b = Buffer.create 16 in List.iter (fun c -> Buffer.add_char b (Char.chr (int_of_byte c))) l; Buffer.contents b

let z_of_string (s : string) : z =
  let neg = String.length s > 0 && s.[0] = '-' in
  let digits = if neg then String.sub s 1 (String.length s - 1) else s in
  let n = ref N0 in
  String.iter (fun c -> n := N.add (N.mul !n (n_of_int 10)) (n_of_int (Char.code c - 48))) digits;
  let z = Z.of_N !n in if neg then Z.opp z else z
let string_of_z (z : z) : string = string_of_str (print_Z z)
let string_of_nn (v : n) : string = string_of_str (print_N v)

(* ---------- hex ---------- *)
let hex_of_string (s : string) : string =
  if s = "" then "." else
    let b = Buffer.create (2 * String.length s) in
    String.iter (fun c -> Buffer.add_string b (Printf.sprintf "%02x" (Char.code c))) s; Buffer.contents b
let hex_of_str (l : str) = hex_of_string (string_of_str l)
let hex_of_ostr = function None -> "-" | Some l -> hex_of_str l
exception Bad
let string_of_hex (h : string) : string option =
  if h = "-" then None else if h = "." then Some "" else begin
    if String.length h mod 2 <> 0 then raise Bad;
    Some (String.init (String.length h / 2) (fun i ->
        match int_of_string_opt ("0x" ^ String.sub h (2 * i) 2) with Some v -> Char.chr v | None -> raise Bad))
  end
let ostr_of_hex h = match string_of_hex h with None -> None | Some s -> Some (str_of_string s)

(* ---------- oracles ---------- *)
let strtod_o (s : str) : strtod_res =
  let (bits, consumed, er) = c_strtod (string_of_str s) in
  { sd_bits = n_of_int64 bits; sd_consumed = nat_of_int consumed; sd_erange = er }
let fmt_f (b : n) : str = str_of_string (c_fmt_f (int64_of_n b))

(* ---------- S-expressions for schemas ---------- *)
type sx = A of string | L of sx list
let parse_sx (s : string) : sx =
  let n = String.length s in
  let i = ref 0 in
  let rec skip () = while !i < n && s.[!i] = ' ' do incr i done
  and item () =
    skip ();
    if !i >= n then raise Bad;
    if s.[!i] = '(' then begin
      incr i;
      let items = ref [] in
      skip ();
      while !i < n && s.[!i] <> ')' do items := item () :: !items; skip () done;
      if !i >= n then raise Bad;
      incr i; L (List.rev !items)
    end else begin
      let j = !i in
      while !i < n && s.[!i] <> ' ' && s.[!i] <> '(' && s.[!i] <> ')' do incr i done;
      A (String.sub s j (!i - j))
    end in
  item ()

let kclamp k = ((k mod 4) + 4) mod 4
let rec opt_of_sx (x : sx) : opt =
  let name h = match ostr_of_hex h with Some s -> s | None -> raise Bad in
  let cbs kind (l : sx list) =
    let p = ref None and v = ref None and v2 = ref None and pr = ref None and noparse = ref false in
    List.iter (function
        | A t -> (match String.index_opt t ':' with
            | Some j -> let k = Some (n_of_int (kclamp (int_of_string (String.sub t (j + 1) (String.length t - j - 1))))) in
              (match String.sub t 0 j with
               | "parse" -> p := k | "valid" -> v := k | "valid2" -> v2 := k | "print" -> pr := k
               | "noparse" -> noparse := true | _ -> raise Bad)
            | None -> raise Bad)
        | L _ -> raise Bad) l;
    let isptr = (kind = KPtr) in
    { cb_parse = (if !noparse then None else if isptr && !p = None then Some N0 else !p); cb_valid = !v; cb_valid2 = !v2; cb_print = !pr;
      cb_free = isptr; cb_func = None } in
  let fl f = n_of_int (int_of_string f) in
  let cfgf_list = 2 in
  let mk nm kind flags def cb = Opt (nm, kind, flags, [], [], def, None, cb) in
  let d0 = { d_num = Z0; d_fp = N0; d_bool = false; d_str = None; d_parsed = None } in
  match x with
  | L (A "int" :: A nm :: A f :: A d :: cb) -> mk (name nm) KInt (fl f) { d0 with d_num = z_of_string d } (cbs KInt cb)
  | L (A "flt" :: A nm :: A f :: A d :: cb) ->
    mk (name nm) KFloat (fl f) { d0 with d_fp = n_of_int64 (Int64.of_string ("0x" ^ d)) } (cbs KFloat cb)
  | L (A "bool" :: A nm :: A f :: A d :: cb) -> mk (name nm) KBool (fl f) { d0 with d_bool = (d <> "0") } (cbs KBool cb)
  | L (A "str" :: A nm :: A f :: A d :: cb) -> mk (name nm) KStr (fl f) { d0 with d_str = ostr_of_hex d } (cbs KStr cb)
  | L (A (("intl" | "fltl" | "booll" | "strl" | "ptrl") as k) :: A nm :: A f :: A d :: cb) ->
    let kind = (match k with "intl" -> KInt | "fltl" -> KFloat | "booll" -> KBool | "strl" -> KStr | _ -> KPtr) in
    mk (name nm) kind (n_of_int (int_of_string f lor cfgf_list)) { d0 with d_parsed = ostr_of_hex d } (cbs kind cb)
  | L (A "ptr" :: A nm :: A f :: cb) -> mk (name nm) KPtr (fl f) d0 (cbs KPtr cb)
  | L (A "sec" :: A nm :: A f :: L subs :: cb) ->
    Opt (name nm, KSec, fl f, [], List.map opt_of_sx subs, d0, None, cbs KSec cb)
  | L [A "func"; A nm; A fn] ->
    let f = if fn = "include" then FInclude
      else FUser (n_of_int (kclamp (int_of_string (String.sub fn 5 (String.length fn - 5))))) in
    Opt (name nm, KFunc, N0, [], [], d0, None,
         { cb_parse = None; cb_valid = None; cb_valid2 = None; cb_print = None; cb_free = false; cb_func = Some f })
  | _ -> raise Bad

(* ---------- world ---------- *)
(* recursion fuel handed to the model: grown on demand so that it exceeds 8 x the largest text seen plus a margin *)
let fuel_size = ref 200000
let fuel_val = ref (nat_of_int 200000)
let need_fuel n =
  if 8 * n + 100000 > !fuel_size then begin
    fuel_size := 2 * (8 * n + 100000);
    fuel_val := nat_of_int !fuel_size
  end
let root = ref ""
let subst_root (s : string) : string =
  if String.length s >= 2 && String.sub s 0 2 = "@R" then !root ^ String.sub s 2 (String.length s - 2) else s
let unsubst_root (s : string) : string =
  let r = !root in let n = String.length r in
  if String.length s >= n && String.sub s 0 n = r && (String.length s = n || s.[n] = '/')
  then "@R" ^ String.sub s n (String.length s - n) else s
let path_of_hex h = match string_of_hex h with None -> None | Some s -> Some (str_of_string (subst_root s))

let fresh_world () : pw =
  { w_lex = lex_init; w_env = []; w_fs = { fs_root = str_of_string !root; fs_ents = [] };
    w_pw = { pw_tab = []; pw_self = None }; w_path = []; w_cbs = []; w_cnt = N0; w_failat = N0;
    w_nextptr = n_of_int 1; w_diags = []; w_open = O; w_crash = None; w_oof = false }

let w = ref (fresh_world ())
let ctxs : (cfg * str list) option array = Array.make 64 None     (* context and its search path (newest first) *)
let schemas : opt list option array = Array.make 64 None
let lex_line = ref N0
let file_sizes : (string, int) Hashtbl.t = Hashtbl.create 16

let sanitize (s : string) =
  String.map (fun c -> if (c >= 'A' && c <= 'Z') || (c >= 'a' && c <= 'z') || (c >= '0' && c <= '9') || c = '%' then c else '_') s

let fmt_diags (ds : diag list) =
  "[" ^ String.concat ";" (List.map (fun d ->
      (match d.d_file with None -> "-" | Some f -> hex_of_string (unsubst_root (string_of_str f)))
      ^ "," ^ string_of_nn d.d_line ^ "," ^ sanitize (string_of_str d.d_fmt)) ds) ^ "]"

let fmt_cb = function
  | CbParse (k, nm, v, f) -> Printf.sprintf "p%d:%s:%s%s" (int_of_n k) (hex_of_str nm) (hex_of_ostr v) (if f then "!" else "")
  | CbValid (k, nm, sz, f) -> Printf.sprintf "v%d:%s:%d%s" (int_of_n k) (hex_of_str nm) (int_of_nat sz) (if f then "!" else "")
  | CbValid2 (k, nm, a, f) ->
    Printf.sprintf "w%d:%s:%s%s" (int_of_n k) (hex_of_str nm)
      (match a with V2Int z -> string_of_z z | V2Float b -> Printf.sprintf "%016Lx" (int64_of_n b) | V2Str s -> hex_of_ostr s)
      (if f then "!" else "")
  | CbFunc (k, nm, args, f) ->
    Printf.sprintf "f%d:%s:%d:%s%s" (int_of_n k) (hex_of_str nm) (List.length args)
      (String.concat "," (List.map hex_of_str args)) (if f then "!" else "")
  | CbFree id -> Printf.sprintf "x:%d" (int_of_n id)

(* take and clear the per-command logs *)
let std_fields () =
  let ww = !w in
  let d = fmt_diags (List.rev ww.w_diags) in
  let c = "[" ^ String.concat ";" (List.rev_map fmt_cb ww.w_cbs) ^ "]" in
  let out = hex_of_str (List.rev ww.w_lex.l_echo) in
  let inc = List.length ww.w_lex.l_inc in
  w := { ww with w_diags = []; w_cbs = []; w_lex = clear_echo ww.w_lex };
  Printf.sprintf "diags=%s cbs=%s out=%s incptr=%d" d c out inc
let drop_logs () = ignore (std_fields ())

let crashed () = (!w).w_crash <> None || (!w).w_oof

(* ---------- dump ---------- *)
let kind_name = function KNone -> "none" | KInt -> "int" | KFloat -> "float" | KStr -> "str" | KBool -> "bool"
                         | KSec -> "sec" | KFunc -> "func" | KPtr -> "ptr"
let has fl m = (int_of_n fl) land m <> 0
let rec dump_cfg b (Cfg (name, title, flags, opts, _, _, _, _)) =
  Buffer.add_string b ("(cfg " ^ hex_of_str name ^ " " ^ hex_of_ostr title ^ " " ^ string_of_int (int_of_n flags));
  List.iter (fun o -> Buffer.add_char b ' '; dump_opt b o) opts;
  Buffer.add_char b ')'
and dump_opt b (Opt (name, k, flags, vals, _, _, comment, _)) =
  let bit m = if has flags m then 1 else 0 in
  Buffer.add_string b (Printf.sprintf "(opt %s %s %d %d %d %d %s" (hex_of_str name) (kind_name k) (List.length vals)
                         (bit 64) (bit 4096) (bit 128) (hex_of_ostr comment));
  if k <> KFunc && k <> KNone then
    List.iter (fun v ->
        Buffer.add_char b ' ';
        match v with
        | VInt z -> Buffer.add_string b (string_of_z z)
        | VFloat x -> Buffer.add_string b (Printf.sprintf "%016Lx" (int64_of_n x))
        | VBool x -> Buffer.add_string b (if x then "1" else "0")
        | VStr s -> Buffer.add_string b (hex_of_ostr s)
        | VSec None -> Buffer.add_string b "nullsec"
        | VSec (Some c) -> dump_cfg b c
        | VPtr id -> Buffer.add_string b ("p" ^ string_of_int (int_of_n id))) vals;
  Buffer.add_char b ')'

let fmt_target steps last =
  String.concat "" (List.map (fun (i, v) -> Printf.sprintf "/%d.%d" (int_of_nat i) (int_of_nat v)) steps)
  ^ (match last with Some i -> Printf.sprintf "/%d" (int_of_nat i) | None -> "")

(* ---------- command interpreter ---------- *)
let out = Buffer.create 65536
let line s = Buffer.add_string out s; Buffer.add_char out '\n'
let std cmd s = line (cmd ^ " " ^ s ^ " " ^ std_fields ())

let with_ctx cmd (id : string) (f : int -> cfg -> str list -> unit) =
  let c = int_of_string id in
  match ctxs.(c) with
  | None -> line (cmd ^ " rc=nocontext")
  | Some (cfg, sp) -> w := set_path !w sp; f c cfg sp
let put c cfg sp = ctxs.(c) <- Some (cfg, sp)
let zrc z = string_of_z z

let value_of_kind kind tok =
  match kind with
  | "int" -> VInt (z_of_string tok)
  | "float" -> VFloat (n_of_int64 (Int64.of_string ("0x" ^ tok)))
  | "bool" -> VBool (tok <> "0")
  | "str" -> VStr (ostr_of_hex tok)
  | _ -> raise Bad

let exec (toks : string list) =
  match toks with
  | ["env"; n; v] ->
    (match string_of_hex n, string_of_hex v with
     | Some n, Some v when n <> "" && not (String.contains n '=') ->
       w := { !w with w_env = (str_of_string n, str_of_string v) :: List.filter (fun (k, _) -> string_of_str k <> n) (!w).w_env };
       line "env"
     | _ -> line "env rc=fail")
  | ["envroot"; n] ->
    (match string_of_hex n with
     | Some n when n <> "" && not (String.contains n '=') ->
       w := { !w with w_env = (str_of_string n, str_of_string !root) :: List.filter (fun (k, _) -> string_of_str k <> n) (!w).w_env };
       line "envroot"
     | _ -> line "envroot rc=fail")
  | ["unsetenv"; n] ->
    (match string_of_hex n with
     | Some n when n <> "" && not (String.contains n '=') ->
       w := { !w with w_env = List.filter (fun (k, _) -> string_of_str k <> n) (!w).w_env }; line "unsetenv"
     | _ -> line "unsetenv rc=fail")
  | ["errno"; _] -> line "errno"
  | ["failat"; n] -> let k = int_of_string n in
    w := { !w with w_failat = n_of_int (max k 0); w_cnt = N0 }; line "failat"
  | ["passwd"; u; h] ->
    (match ostr_of_hex u, path_of_hex h with
     | Some u, Some h ->
       let ww = !w in
       w := { ww with w_pw = { ww.w_pw with pw_tab = (u, h) :: List.filter (fun (k, _) -> k <> u) ww.w_pw.pw_tab } }; line "passwd"
     | _ -> raise Bad)
  | ["passwd_self"; u] ->
    (match ostr_of_hex u with
     | Some u -> let ww = !w in w := { ww with w_pw = { ww.w_pw with pw_self = Some u } }; line "passwd_self"
     | None -> raise Bad)
  | "file" :: p :: kind :: rest ->
    (match rest with h :: _ -> Hashtbl.replace file_sizes p (String.length h / 2) | [] -> ());
    (match path_of_hex p with
     | None -> raise Bad
     | Some path ->
       let content = (match rest with [] -> [] | h :: _ -> (match ostr_of_hex h with Some s -> s | None -> [])) in
       (* a symbolic link reads as its target does at the time the link is made (the scenarios do not change targets later) *)
       let ent = (match kind with "file" -> FFile content | "dir" -> FDir | "missing" -> FMissing
                                | "link" -> (match rest with
                                    | h :: _ -> (match path_of_hex h with Some t -> fs_lookup (!w).w_fs t | None -> raise Bad)
                                    | [] -> raise Bad)
                                | _ -> raise Bad) in
       let ww = !w in
       (* creating a file creates its parent directories *)
       let fs = fs_set ww.w_fs path ent in
       let fs = if kind = "missing" then fs else begin
           let s = string_of_str path in
           let acc = ref fs in
           String.iteri (fun i c -> if c = '/' && i > 0 then begin
               let d = String.sub s 0 i in
               if String.length d > String.length !root then
                 (match fs_lookup !acc (str_of_string d) with FDir -> () | _ ->
                     acc := { !acc with fs_ents = !acc.fs_ents @ [] }; acc := fs_set !acc (str_of_string d) FDir)
               else if d.[0] <> '/' then
                 (match fs_lookup !acc (str_of_string d) with FDir -> () | _ -> acc := fs_set !acc (str_of_string d) FDir)
             end) s;
           (* re-assert the entry itself on top *)
           fs_set !acc path ent
         end in
       w := { ww with w_fs = fs }; line "file")
  | "schema" :: s :: rest ->
    let sx = parse_sx (String.concat " " rest) in
    (match sx with L items -> schemas.(int_of_string s) <- Some (List.map opt_of_sx items) | A _ -> raise Bad);
    line "schema"
  | ["init"; c; s; f] ->
    let ci = int_of_string c in
    (match schemas.(int_of_string s) with
     | None -> line "init rc=noschema"
     | Some decls ->
       if ctxs.(ci) <> None then line "init rc=exists" else begin
         w := set_path !w [];
         let (w1, cfg) = cfg_init strtod_o !fuel_val !w decls (n_of_int (int_of_string f)) in
         w := w1; ctxs.(ci) <- Some (cfg, []);
         std "init" "rc=ptr"
       end)
  | ["poison"; s] -> schemas.(int_of_string s) <- None; line "poison"
  | ["free"; c] -> with_ctx "free" c (fun ci cfg _ -> w := cfg_free !w cfg; ctxs.(ci) <- None; std "free" "rc=0")
  | ["searchpath"; c; d] -> with_ctx "searchpath" c (fun ci cfg sp ->
      match path_of_hex d with
      | None -> std "searchpath" "rc=-1"
      | Some dir -> put ci cfg (tilde_expand (!w).w_pw dir :: sp); std "searchpath" "rc=0")
  | ["parse_buf"; c; t] -> with_ctx "parse_buf" c (fun ci cfg sp ->
      let ((w1, cfg1), rc) = parse_buf strtod_o !fuel_val !w cfg (ostr_of_hex t) in
      w := w1; put ci cfg1 sp; std "parse_buf" ("rc=" ^ zrc rc))
  | ["parse_file"; c; p] -> with_ctx "parse_file" c (fun ci cfg sp ->
      match path_of_hex p with
      | None -> std "parse_file" "rc=-1"
      | Some path ->
        let ((w1, cfg1), rc) = parse_file strtod_o !fuel_val !w cfg path in
        w := w1; put ci cfg1 sp; std "parse_file" ("rc=" ^ zrc rc))
  | ["parse_fp"; c; p] -> with_ctx "parse_fp" c (fun ci cfg sp ->
      match path_of_hex p with
      | None -> std "parse_fp" "rc=nofile"
      | Some path ->
        (match fs_lookup (!w).w_fs path with
         | FFile content ->
           let ((w1, cfg1), rc) = parse_fp strtod_o !fuel_val !w cfg content in
           w := w1; put ci cfg1 sp; std "parse_fp" ("rc=" ^ zrc rc)
         | FDir ->                           (* fopen succeeds on a directory; reading fails *)
           let ((w1, cfg1), rc) = parse_fp_unreadable strtod_o !fuel_val !w cfg in
           w := w1; put ci cfg1 sp; std "parse_fp" ("rc=" ^ zrc rc)
         | FMissing -> std "parse_fp" "rc=nofile"))
  | ["parse_fpfail"; c; t] -> with_ctx "parse_fpfail" c (fun ci cfg sp ->
      (* a stream that delivers the bytes and then reports a read error *)
      let content = (match ostr_of_hex t with Some s -> s | None -> []) in
      let ((w1, cfg1), rc) = parse_fp_partial strtod_o !fuel_val !w cfg content in
      w := w1; put ci cfg1 sp; std "parse_fpfail" ("rc=" ^ zrc rc))
  | ["lex"; t] ->
    let text = (match ostr_of_hex t with Some s -> s | None -> []) in
    let ww = !w in
    let l1 = scan_begin ww.w_lex text in
    let ((((toks, e), l2), p), ds) = lex_all ww.w_env (nat_of_int 100000) l1 { p_file = None; p_line = n_of_int 1 } [] [] in
    let l3 = scan_end l2 in
    w := { ww with w_lex = l3; w_diags = List.rev_append ds ww.w_diags };
    let ft t = (match t.lt_tok with
        | TStr -> "S:" ^ hex_of_ostr t.lt_val | TComment -> "C:" ^ hex_of_ostr t.lt_val
        | TPunct c -> "P" ^ String.make 1 (Char.chr (int_of_n c)) | TEof -> "T-1" | TErr -> "T0")
               ^ "@" ^ string_of_nn t.lt_line in
    std "lex" (Printf.sprintf "toks=[%s] end=%s line=%s" (String.concat " " (List.map ft toks))
                 (match e with TEof -> "eof" | _ -> "err") (string_of_nn p.p_line))
  | ["dump"; c] -> with_ctx "dump" c (fun _ cfg _ ->
      let b = Buffer.create 256 in dump_cfg b cfg; drop_logs (); line ("dump " ^ Buffer.contents b))
  | ["getopt"; c; p] -> with_ctx "getopt" c (fun _ cfg _ ->
      match ostr_of_hex p with
      | None | Some [] -> std "getopt" "target=null"
      | Some path ->
        let (r, ds) = cfg_getopt cfg path in
        w := { !w with w_diags = List.rev_append ds (!w).w_diags };
        std "getopt" ("target=" ^ (match r with None -> "null" | Some (steps, i) -> fmt_target steps (Some i))))
  | ["getsec"; c; p] -> with_ctx "getsec" c (fun _ cfg _ ->
      match ostr_of_hex p with
      | None | Some [] -> std "getsec" "target=null"
      | Some path ->
        let (w1, r) = cfg_getsec !w cfg path in
        w := w1;
        std "getsec" ("target=" ^ (match r with None -> "null" | Some [] -> "/" | Some steps -> fmt_target steps None)))
  | ("getv" | "getv0" as cmd) :: c :: kind :: p :: rest when (cmd = "getv" && List.length rest = 1) || (cmd = "getv0" && rest = []) ->
    with_ctx cmd c (fun _ cfg _ ->
      let name = (match ostr_of_hex p with Some s -> s | None -> raise Bad) in
      let k = (match kind with "int" -> KInt | "flt" -> KFloat | "bool" -> KBool | "str" -> KStr | "ptr" -> KPtr | "sec" -> KSec | _ -> raise Bad) in
      if cmd = "getv0" && kind = "sec" then begin
        (* the short form for sections is cfg_getsec *)
        let (w1, r) = cfg_getsec !w cfg name in
        w := w1;
        std cmd ("v=" ^ (match r with None -> "null" | Some [] -> "/" | Some steps -> fmt_target steps None))
      end else begin
        let i = (match rest with [i] -> int_of_string i land 0xffffffff | _ -> 0) in
        let (w1, r) = cfg_getn !w cfg k name (n_of_int i) in
        w := w1;
        std cmd ("v=" ^ (match r with
            | GInt z -> string_of_z z
            | GFloat x -> Printf.sprintf "%016Lx" (int64_of_n x)
            | GBool b -> if b then "1" else "0"
            | GStr s -> hex_of_ostr s
            | GPtr id -> "p" ^ string_of_int (int_of_n id)
            | GSec None -> "null"
            | GSec (Some steps) -> fmt_target steps None))
      end)
  | ["gettsec"; c; p; t] -> with_ctx "gettsec" c (fun _ cfg _ ->
      match ostr_of_hex p, ostr_of_hex t with
      | Some name, Some title ->
        let (w1, r) = cfg_gettsec !w cfg name title in
        w := w1;
        std "gettsec" ("target=" ^ (match r with None -> "null" | Some steps -> fmt_target steps None))
      | _, _ -> raise Bad)
  | ["size"; c; p] -> with_ctx "size" c (fun _ cfg _ ->
      let n = (match ostr_of_hex p with
          | None | Some [] -> 0
          | Some path -> let (r, _) = cfg_getopt cfg path in
            (match r with None -> 0 | Some r -> (match get_opt cfg r with Some o -> List.length (o_vals o) | None -> 0))) in
      drop_logs (); line (Printf.sprintf "size n=%d" n))
  | ["title"; c; p] -> with_ctx "title" c (fun _ cfg _ ->
      let t = (match ostr_of_hex p with
          | None -> c_title cfg
          | Some [] -> None
          | Some path -> let (_, r) = cfg_getsec !w cfg path in
            (match r with None -> None | Some steps -> (match get_sec cfg steps with Some s -> c_title s | None -> None))) in
      drop_logs (); line ("title t=" ^ hex_of_ostr t))
  | ["setint"; c; p; v; i] -> with_ctx "setint" c (fun ci cfg sp ->
      let name = (match ostr_of_hex p with Some s -> s | None -> []) in
      let ((w1, cfg1), rc) = cfg_setnint !w cfg name (z_of_string v) (n_of_int (int_of_string i land 0xffffffff)) in
      w := w1; put ci cfg1 sp; std "setint" ("rc=" ^ zrc rc))
  | ["setfloat"; c; p; v; i] -> with_ctx "setfloat" c (fun ci cfg sp ->
      let name = (match ostr_of_hex p with Some s -> s | None -> []) in
      let ((w1, cfg1), rc) = cfg_setnfloat !w cfg name (n_of_int64 (Int64.of_string ("0x" ^ v))) (n_of_int (int_of_string i land 0xffffffff)) in
      w := w1; put ci cfg1 sp; std "setfloat" ("rc=" ^ zrc rc))
  | ["setbool"; c; p; v; i] -> with_ctx "setbool" c (fun ci cfg sp ->
      let name = (match ostr_of_hex p with Some s -> s | None -> []) in
      let ((w1, cfg1), rc) = cfg_setnbool !w cfg name (v <> "0") (n_of_int (int_of_string i land 0xffffffff)) in
      w := w1; put ci cfg1 sp; std "setbool" ("rc=" ^ zrc rc))
  | ["setstr"; c; p; v; i] -> with_ctx "setstr" c (fun ci cfg sp ->
      let name = (match ostr_of_hex p with Some s -> s | None -> []) in
      let ((w1, cfg1), rc) = cfg_setnstr !w cfg name (ostr_of_hex v) (n_of_int (int_of_string i land 0xffffffff)) in
      w := w1; put ci cfg1 sp; std "setstr" ("rc=" ^ zrc rc))
  | ["setstr_self"; c; p; o; i] -> with_ctx "setstr_self" c (fun ci cfg sp ->
      (* the value's own suffix written back to its slot *)
      let name = (match ostr_of_hex p with Some s -> s | None -> []) in
      let idx = int_of_string i land 0xffffffff and off = int_of_string o in
      let (r, ds) = cfg_getopt cfg name in
      w := add_diags !w ds;
      let cur = (match r with
          | None -> None
          | Some r -> (match get_opt cfg r with
              | Some op when o_kind op = KStr -> (match List.nth_opt (o_vals op) idx with Some (VStr (Some s)) -> Some s | _ -> None)
              | _ -> None)) in
      (match cur with
       | Some s when off <= List.length s ->
         let rec drop n l = if n = 0 then l else (match l with [] -> [] | _ :: t -> drop (n - 1) t) in
         let ((w1, cfg1), rc) = cfg_setnstr !w cfg name (Some (drop off s)) (n_of_int idx) in
         w := w1; put ci cfg1 sp; std "setstr_self" ("rc=" ^ zrc rc)
       | _ -> std "setstr_self" "rc=-2"))
  | (("setlist" | "addlist") as cmd) :: c :: p :: kind :: vs -> with_ctx cmd c (fun ci cfg sp ->
      let name = (match ostr_of_hex p with Some s -> s | None -> []) in
      let vals = List.map (value_of_kind kind) vs in
      let ((w1, cfg1), rc) = (if cmd = "setlist" then cfg_setlist else cfg_addlist) !w cfg name vals in
      w := w1; put ci cfg1 sp; std cmd ("rc=" ^ zrc rc))
  | "setmulti" :: c :: p :: vs -> with_ctx "setmulti" c (fun ci cfg sp ->
      let name = (match ostr_of_hex p with Some s -> s | None -> []) in
      let ((w1, cfg1), rc) = cfg_setmulti strtod_o !fuel_val !w cfg name (List.map ostr_of_hex vs) in
      w := w1; put ci cfg1 sp; std "setmulti" ("rc=" ^ zrc rc))
  | ["setopt"; c; p; v] -> with_ctx "setopt" c (fun ci cfg sp ->
      let name = (match ostr_of_hex p with Some s -> s | None -> []) in
      let ((w1, cfg1), r) = cfg_setopt_cmd strtod_o !fuel_val !w cfg name (ostr_of_hex v) in
      w := w1; put ci cfg1 sp;
      std "setopt" ("rc=" ^ (match r with None -> "noopt" | Some true -> "ptr" | Some false -> "null")))
  | ["setcomment"; c; p; v] -> with_ctx "setcomment" c (fun ci cfg sp ->
      let name = (match ostr_of_hex p with Some s -> s | None -> []) in
      let ((w1, cfg1), rc) = cfg_setcomment !w cfg name (ostr_of_hex v) in
      w := w1; put ci cfg1 sp; std "setcomment" ("rc=" ^ zrc rc))
  | ["addtsec"; c; p; t] -> with_ctx "addtsec" c (fun ci cfg sp ->
      let name = (match ostr_of_hex p with Some s -> s | None -> []) in
      let ((w1, cfg1), ok) = cfg_addtsec strtod_o !fuel_val !w cfg name (ostr_of_hex t) in
      w := w1; put ci cfg1 sp; std "addtsec" ("rc=" ^ (if ok then "ptr" else "null")))
  | ["rmsec"; c; p] -> with_ctx "rmsec" c (fun ci cfg sp ->
      let name = (match ostr_of_hex p with Some s -> s | None -> []) in
      let ((w1, cfg1), rc) = cfg_rmsec !w cfg name in
      w := w1; put ci cfg1 sp; std "rmsec" ("rc=" ^ zrc rc))
  | ["rmnsec"; c; p; i] -> with_ctx "rmnsec" c (fun ci cfg sp ->
      let name = (match ostr_of_hex p with Some s -> s | None -> []) in
      let ((w1, cfg1), rc) = cfg_rmnsec !w cfg name (n_of_int (int_of_string i land 0xffffffff)) in
      w := w1; put ci cfg1 sp; std "rmnsec" ("rc=" ^ zrc rc))
  | ["rmtsec"; c; p; t] -> with_ctx "rmtsec" c (fun ci cfg sp ->
      let name = (match ostr_of_hex p with Some s -> s | None -> []) in
      let ((w1, cfg1), rc) = cfg_rmtsec !w cfg name (ostr_of_hex t) in
      w := w1; put ci cfg1 sp; std "rmtsec" ("rc=" ^ zrc rc))
  | [("validate" | "validate2" | "printfunc") as cmd; c; p; k] -> with_ctx cmd c (fun ci cfg sp ->
      let name = (match ostr_of_hex p with Some s -> s | None -> []) in
      let kk = n_of_int (kclamp (int_of_string k)) in
      (match cmd with
       | "validate" -> put ci (cfg_set_validate_func cfg name kk) sp
       | "validate2" -> put ci (cfg_set_validate_func2 cfg name kk) sp
       | _ -> let ((w1, cfg1), _) = cfg_set_print_func !w cfg name kk in w := w1; put ci cfg1 sp);
      std cmd "rc=ok")
  | [("validate" | "validate2" | "printfunc") as cmd; c; p; k; sp_hex] -> with_ctx cmd c (fun ci cfg sp ->
      (* installed through a section instance: cfg_getsec(cfg, SECPATH), then the setter on that section *)
      let name = (match ostr_of_hex p with Some s -> s | None -> []) in
      let kk = n_of_int (kclamp (int_of_string k)) in
      let secpath = (match ostr_of_hex sp_hex with Some s -> s | None -> []) in
      let (w1, r) = cfg_getsec !w cfg secpath in
      w := w1;
      (match r with
       | None -> std cmd "rc=nosec"
       | Some steps ->
         let f s = (match cmd with
             | "validate" -> cfg_set_validate_func s name kk
             | "validate2" -> cfg_set_validate_func2 s name kk
             | _ -> let ((w2, s1), _) = cfg_set_print_func !w s name kk in w := w2; s1) in
         put ci (upd_sec cfg steps f) sp; std cmd "rc=ok"))
  | ["unfilter"; c; p] -> with_ctx "unfilter" c (fun ci cfg sp ->
      let clr (Cfg (n, t, f, o, fi, l, e, _)) = Cfg (n, t, f, o, fi, l, e, None) in
      match ostr_of_hex p with
      | None -> put ci (clr cfg) sp; std "unfilter" "rc=ok"
      | Some path ->
        let (w1, r) = cfg_getsec !w cfg path in
        w := w1;
        (match r with
         | None -> std "unfilter" "rc=nosec"
         | Some steps -> put ci (Model.upd_sec cfg steps clr) sp; std "unfilter" "rc=ok"))
  | "filter" :: c :: p :: names -> with_ctx "filter" c (fun ci cfg sp ->
      let set = List.map (fun h -> match ostr_of_hex h with Some s -> s | None -> raise Bad) names in
      let setp (Cfg (n, t, f, o, fi, l, e, _)) = Cfg (n, t, f, o, fi, l, e, Some set) in
      match ostr_of_hex p with
      | None -> put ci (setp cfg) sp; std "filter" "rc=ok"
      | Some path ->
        let (w1, r) = cfg_getsec !w cfg path in
        w := w1;
        (match r with
         | None -> std "filter" "rc=nosec"
         | Some steps -> put ci (Model.upd_sec cfg steps setp) sp; std "filter" "rc=ok"))
  | ["print"; c; ind] -> with_ctx "print" c (fun _ cfg _ ->
      let text = cfg_print_indent fmt_f cfg (nat_of_int (int_of_string ind)) in
      std "print" ("rc=0 text=" ^ hex_of_str text))
  | ["roundtrip"; c; d] -> with_ctx "roundtrip" c (fun _ cfg _ ->
      let di = int_of_string d in
      match ctxs.(di) with
      | None -> line "roundtrip rc=nocontext"
      | Some (dcfg, dsp) ->
        let text = cfg_print_indent fmt_f cfg O in
        w := set_path !w dsp;
        need_fuel (List.length text);
        let ((w1, dcfg1), rc) = parse_buf strtod_o !fuel_val !w dcfg (Some text) in
        w := w1; ctxs.(di) <- Some (dcfg1, dsp);
        std "roundtrip" ("rc=" ^ zrc rc ^ " text=" ^ hex_of_str text))
  | ["printopt"; c; p] -> with_ctx "printopt" c (fun _ cfg _ ->
      let name = (match ostr_of_hex p with Some s -> s | None -> []) in
      let (r, ds) = cfg_getopt cfg name in
      w := { !w with w_diags = List.rev_append ds (!w).w_diags };
      (match r with
       | None -> std "printopt" "rc=-1 text=."
       | Some r -> (match get_opt cfg r with
           | Some o -> std "printopt" ("rc=0 text=" ^ hex_of_str (cfg_opt_print fmt_f o))
           | None -> std "printopt" "rc=-1 text=.")))
  | ["tilde"; nme] ->
    (match path_of_hex nme with
     | None -> raise Bad
     | Some nm -> drop_logs (); line ("tilde res=" ^ hex_of_string (unsubst_root (string_of_str (tilde_expand (!w).w_pw nm)))))
  | ["lookup"; c; nme] -> with_ctx "lookup" c (fun _ _ sp ->
      match path_of_hex nme with
      | None -> drop_logs (); line "lookup res=-"
      | Some nm ->
        drop_logs ();
        line ("lookup res=" ^ (match cfg_searchpath (!w).w_fs sp nm with
            | None -> "-" | Some s -> hex_of_string (unsubst_root (string_of_str s)))))
  | ["spec_parse"; c; t] -> with_ctx "spec_parse" c (fun _ cfg _ ->
      (* the reference meaning (coq/Grammar.v) of TEXT in the current state of context C; nothing is modified *)
      let text = (match ostr_of_hex t with Some s -> cstr s | None -> []) in
      let ww = !w in
      let ((((toks, e), _), _), _) =
        lex_all ww.w_env (nat_of_int 1000000) (scan_begin lex_init text) { p_file = None; p_line = n_of_int 1 } [] [] in
      (match e with
       | TEof ->
         (match text_meaning strtod_o cfg toks with
          | Some c' -> let b = Buffer.create 256 in dump_cfg b c'; line ("spec_parse rc=accept obs=" ^ Buffer.contents b)
          | None -> line "spec_parse rc=reject")
       | _ -> line "spec_parse rc=reject"))
  | ["failalloc"; _] -> line "failalloc rc=unsupported"
  | ["live"] -> line "live rc=unsupported"
  | cmd :: _ -> line (cmd ^ " rc=badcmd")
  | [] -> ()

let () =
  let file = Sys.argv.(1) in
  root := (if Array.length Sys.argv > 2 then Sys.argv.(2) else "/R");
  assert (int_of_n (to_N (byte_of_int 200)) = 200);
  let ic = open_in_bin file in
  let cur = ref None in
  let dead = ref false in
  let finish () =
    (match !cur with
     | None -> ()
     | Some id ->
       let st = (match (!w).w_crash with
           | Some k -> "crash:" ^ string_of_str k
           | None -> if (!w).w_oof then "crash:out-of-fuel" else "exit:0") in
       line (Printf.sprintf "--- %s status=%s san=-" id st));
    print_string (Buffer.contents out); Buffer.clear out in
  (try
     while true do
       let l = input_line ic in
       if String.length l >= 4 && String.sub l 0 4 = "=== " then begin
         finish ();
         let id = String.sub l 4 (String.length l - 4) in
         cur := Some id; dead := false;
         root := (if Array.length Sys.argv > 2 then Sys.argv.(2) else "/R");
         w := fresh_world ();
         Array.fill ctxs 0 64 None; Array.fill schemas 0 64 None;
         line ("=== " ^ id)
       end else if l = "" || l.[0] = '#' then ()
       else if !dead || !cur = None then ()
       else begin
         let toks = String.split_on_char ' ' l in
         need_fuel (String.length l / 2 + Hashtbl.fold (fun _ v a -> max a v) file_sizes 0);
         let mark = Buffer.length out in
         (try exec toks with Bad | Failure _ | Invalid_argument _ | Not_found -> line (List.hd toks ^ " rc=badargs"));
         if crashed () then begin dead := true; Buffer.truncate out mark end
       end
     done
   with End_of_file -> ());
  finish ()
